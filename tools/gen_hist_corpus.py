#!/venv/bin/python
"""Directed corpus, history families (hist_*): multi-step histories and coincidences that the random generator reaches with
negligible probability.  Every scenario is anchored to events of the run (until_state / until_pin), not to absolute times."""
import json
import os
import sys

VERIF = os.path.dirname(os.path.dirname(os.path.abspath(__file__)))
OPTS = {"tank_raw": 1000.0, "cover_rate": 25.0, "ph": 7.6, "orp": 550.0, "start": "2024-06-03T10:00:00"}
END = [["mqtt", "/settings/mode", "halt"], ["run", 12]]
out = []


def add(name, acts, opts=None):
    out.append((name, {"opts": opts or OPTS, "actions": acts}))


# 1. the same emergency twice: tank too low, restart with a filled tank, too low again (also with a dead sensor the second time)
for k, second in enumerate((["tank", 4], ["adc_fault", True])):
    for restart_level in (50, 12):
        add(f"repeat_emergency_{k}_{restart_level}", [["tank", 50], ["mqtt", "/settings/mode", "eco"], ["run", 60], ["tank", 4], ["run", 60], ["tank", restart_level],
            ["mqtt", "/settings/mode", "eco"], ["run", 90], second, ["run", 70], ["tank", 50], ["adc_fault", False], ["run", 30]] + END)
# force-empty twice with a restart in between
add("repeat_force_empty", [["tank", 50], ["mqtt", "/settings/mode", "eco"], ["run", 60], ["mqtt", "/settings/tank/force_empty", "ON"], ["run", 10], ["mqtt", "/settings/tank/force_empty", "OFF"],
    ["run", 30], ["mqtt", "/settings/mode", "eco"], ["run", 60], ["mqtt", "/settings/tank/force_empty", "ON"], ["run", 20]] + END)

# 2. a setting of the running mode and the same mode request in one burst (the reload it causes is served inside the boost)
for mode, setting in (("standby", "/settings/filtration/speed/standby"), ("overflow", "/settings/filtration/speed/overflow")):
    for val in ("2", "3"):
        for order in (0, 1):
            b = [[setting, val], ["/settings/mode", mode]]
            add(f"burst_setting_mode_{mode}_{val}_{order}", [["temp", "pool", 28.0], ["mqtt", "/settings/mode", "eco"], ["run", 20], ["mqtt", "/settings/mode", mode], ["run", 400],
                ["burst", b if order == 0 else b[::-1]], ["run", 400], ["mqtt", "/settings/mode", "eco"], ["run", 400]] + END)

# 3. a level sensor that answers only now and then while the valve is open (n of the next reads fail)
for n in (8, 9, 18, 19, 7):
    add(f"adc_partial_low_{n}", [["tank", 50], ["mqtt", "/settings/mode", "eco"], ["run", 60], ["tank", 22], ["until_state", "Tank", "low", 60], ["run", 2], ["adc_fault", n], ["run", 120],
        ["tank", 50], ["run", 120], ["tank", 22], ["run", 6 * 3600 + 200]] + END)
    add(f"adc_partial_fill_{n}", [["tank", 4], ["mqtt", "/settings/tank/force_empty", "ON"], ["mqtt", "/settings/tank/force_empty", "OFF"], ["run", 8], ["adc_fault", n], ["run", 120], ["tank", 14], ["run", 90],
        ["tank", 50], ["run", 120]] + END)

# 4. the level set changes while the valve is open (the pool is opened while the tank is refilling)
for lvl in (27, 31, 33):
    add(f"set_mode_in_low_{lvl}", [["tank", 50], ["mqtt", "/settings/mode", "eco"], ["run", 60], ["mqtt", "/settings/mode", "standby"], ["run", 3], ["tank", 18], ["until_state", "Tank", "low", 60],
        ["until_state", "Filtration", "standby", 200], ["run", 5], ["tank", lvl], ["run", 300], ["mqtt", "/settings/mode", "eco"], ["run", 200]] + END)

# 5. a wash request while the tank controller is slow to answer, after an earlier backwash, with a tank that is no longer high
W = {"tank_raw": 1500.0, "cover_rate": 25.0, "ph": 7.6, "orp": 550.0, "start": "2024-06-03T10:00:00"}
for lag in (1.5, 6):
    add(f"wash_slow_tank_{lag}", [["temp", "pool", 28.0], ["tank", 80], ["mqtt", "/settings/mode", "eco"], ["run", 20], ["mqtt", "/settings/mode", "wash"], ["until_state", "Filtration", "eco", 400], ["run", 30],
        ["tank", 50], ["run", 60], ["lagcmd", "Tank", lag, "/settings/mode", "wash"], ["run", 30]] + END, W)

# 6. the timeout of a sequenced phase fires while the controller is slow and commands pile up meanwhile
for phase, pre in (("wash_rinse", [["tank", 80], ["mqtt", "/settings/mode", "eco"], ["run", 20], ["mqtt", "/settings/mode", "wash"], ["until_state", "Filtration", "wash_rinse", 300], ["run", 3]]),
                   ("wash_backwash", [["tank", 80], ["mqtt", "/settings/mode", "eco"], ["run", 20], ["mqtt", "/settings/mode", "wash"], ["until_state", "Filtration", "wash_backwash", 60], ["run", 6]]),
                   ("opening_standby", [["mqtt", "/settings/mode", "eco"], ["run", 20], ["mqtt", "/settings/mode", "standby"], ["until_state", "Filtration", "opening", 30], ["run", 2]]),
                   ("closing", [["mqtt", "/settings/mode", "eco"], ["run", 20], ["mqtt", "/settings/mode", "standby"], ["run", 400], ["mqtt", "/settings/mode", "eco"], ["until_state", "Filtration", "closing", 30], ["run", 1]])):
    for cmd in ("halt", "eco", "standby"):
        for secs in (1.5,):
            add(f"racelag_seq_{phase}_{cmd}_{int(secs)}", [["temp", "pool", 28.0]] + pre + [["racelag", "Filtration", secs, "/settings/mode", cmd], ["run", 40]] + END, W if phase.startswith("wash") else OPTS)
    # the cover has arrived: the final settling delay is armed; commands queue up while Filtration is slow
    if phase in ("opening_standby", "closing"):
        for seq in ((("/settings/mode", "eco"), ("/settings/mode", "standby")), (("/settings/mode", "standby"), ("/settings/mode", "eco"))):
            add(f"racelag_settle_{phase}_{seq[0][1]}", [["temp", "pool", 28.0]] + pre + [["run", 12], ["queue", seq[0][0], seq[0][1]], ["racelag", "Filtration", 2.5, seq[1][0], seq[1][1]], ["cover", 2.0], ["run", 60]] + END)

# 7. comfort / heating polls with a slow Heating actor
for secs in (1.5,):
    add(f"lag_comfort_poll_{int(secs)}", [["temp", "pool", 24.0], ["mqtt", "/settings/mode", "eco"], ["run", 20], ["mqtt", "/settings/mode", "standby"], ["run", 400], ["mqtt", "/settings/mode", "comfort"], ["run", 8],
        ["lag", "Heating", secs], ["run", 8], ["lag", "Heating", secs], ["run", 120]] + END)

# 8. the DAC of the counter-current pump fails exactly when a wintering stir starts (I2C glitch), for the first writes or for the whole stir
COLD = {"tank_raw": 1000.0, "cover_rate": 25.0, "ph": 7.6, "orp": 550.0, "start": "2024-01-10T10:00:00"}
for k, fault in enumerate((3, 6, True)):
    add(f"dac_fault_at_swim_stir_{k}", [["temp", "air", -5.0], ["temp", "ncc", -5.0], ["mqtt", "/settings/mode", "wintering"], ["run", 10700], ["dac_fault", fault],
        ["until_state", "Swim", "wintering_stir", 600], ["run", 70], ["dac_fault", False], ["run", 11500]] + END, COLD)

n = 0
for name, sc in out:
    json.dump(sc, open(os.path.join(VERIF, "corpus", f"hist_{name}.json"), "w"))
    n += 1
print("written", n)
